package rules

import (
	"fmt"
	"go/token"
	"go/types"
	"sort"
	"strings"

	"golang.org/x/tools/go/ssa"

	"verif/internal/core"
)

// C09.dirtycover — persistence of the state modules is driven by dirty flags: Commit writes a
// record only if something marked it dirty. A method of a persisted model that assigns one of the
// model's encoded fields therefore has to mark the model dirty on every path through that
// assignment — or, when it marks only "if the value changed", the change test has to read the
// very field that is assigned. An assignment that can execute without any dirty mark, or whose
// dirty mark is conditional on a comparison of some other field, leaves a value in memory that a
// restarted node will not find on disk.
//
// Scope: pointer-receiver methods of struct types in the state packages that own a dirty marker
// (a func-typed field named markDirty / markDirty*, or a bool field named isDirty / is*Dirty);
// assignments to exported fields of the receiver (the RLP encoder writes exported fields).
// Methods that the model's module calls only from its own Commit/constructor/loader code are out
// of scope (they write what was just read or written).

type dirtyModel struct {
	t       *types.Named
	markers map[string]bool // field names that are dirty markers
}

func dirtyModels(c *core.Ctx) []*dirtyModel {
	var out []*dirtyModel
	for sp, p := range c.PkgBy {
		if !strings.HasPrefix(sp, core.PkgState+"/") {
			continue
		}
		sc := p.Types.Scope()
		for _, n := range sc.Names() {
			tn, ok := sc.Lookup(n).(*types.TypeName)
			if !ok {
				continue
			}
			nt, ok := tn.Type().(*types.Named)
			if !ok {
				continue
			}
			st, ok := nt.Underlying().(*types.Struct)
			if !ok {
				continue
			}
			dm := &dirtyModel{t: nt, markers: map[string]bool{}}
			exported := 0
			for i := 0; i < st.NumFields(); i++ {
				f := st.Field(i)
				if f.Exported() {
					exported++
				}
				name := f.Name()
				if _, isFn := f.Type().Underlying().(*types.Signature); isFn && strings.HasPrefix(name, "markDirty") {
					dm.markers[name] = true
				}
				if b, isB := f.Type().Underlying().(*types.Basic); isB && b.Kind() == types.Bool && strings.HasPrefix(name, "is") && strings.HasSuffix(name, "Dirty") {
					dm.markers[name] = true
				}
			}
			if len(dm.markers) > 0 && exported > 0 {
				out = append(out, dm)
			}
		}
	}
	sort.Slice(out, func(i, j int) bool { return out[i].t.String() < out[j].t.String() })
	return out
}

// dirtyMarks returns the instructions of fn that mark the receiver dirty.
func dirtyMarks(fn *ssa.Function, dm *dirtyModel) []ssa.Instruction {
	var out []ssa.Instruction
	recv := fn.Params[0]
	isRecv := func(v ssa.Value) bool {
		v = core.Unwrap(v)
		if v == ssa.Value(recv) {
			return true
		}
		// captured receiver: load of the cell holding it
		if ld, ok := v.(*ssa.UnOp); ok && ld.Op == token.MUL {
			if al, ok := ld.X.(*ssa.Alloc); ok {
				for _, r := range *al.Referrers() {
					if st, ok := r.(*ssa.Store); ok && st.Addr == al && core.Unwrap(st.Val) == ssa.Value(recv) {
						return true
					}
				}
			}
		}
		return false
	}
	for _, b := range fn.Blocks {
		for _, in := range b.Instrs {
			switch x := in.(type) {
			case *ssa.Store:
				if fa, ok := x.Addr.(*ssa.FieldAddr); ok && dm.markers[fieldNameOf(fa)] && isRecv(fa.X) {
					if k, ok := x.Val.(*ssa.Const); ok && k.Value != nil && k.Value.String() == "true" {
						out = append(out, x)
					}
				}
			case ssa.CallInstruction:
				cc := x.Common()
				if cc.IsInvoke() || cc.StaticCallee() != nil {
					// a method of the same receiver that itself marks dirty unconditionally (one level)
					if sc := cc.StaticCallee(); sc != nil && sc.Signature.Recv() != nil && len(cc.Args) > 0 && isRecv(cc.Args[0]) && sc != fn && sc.Blocks != nil {
						if strings.HasPrefix(sc.Name(), "markDirty") || strings.HasPrefix(sc.Name(), "setDirty") {
							out = append(out, x)
						}
					}
					continue
				}
				if ld, ok := cc.Value.(*ssa.UnOp); ok && ld.Op == token.MUL {
					if fa, ok := ld.X.(*ssa.FieldAddr); ok && dm.markers[fieldNameOf(fa)] && isRecv(fa.X) {
						out = append(out, x)
					}
				}
			}
		}
	}
	return out
}

// onEveryPathThrough: instruction d executes on every path from entry to exit that executes s.
func onEveryPathThrough(fn *ssa.Function, d, s ssa.Instruction) bool {
	db, sb := d.Block(), s.Block()
	if db == sb {
		return true
	}
	if db.Dominates(sb) {
		return true
	}
	// d after s on every path: removing d's block, no return is reachable from s
	reach := core.ReachFrom(sb, map[*ssa.BasicBlock]bool{db: true})
	for _, r := range core.Returns(fn) {
		if fn.Recover != nil && r.Block() == fn.Recover {
			continue
		}
		if reach[r.Block()] {
			return false
		}
	}
	return true
}

func checkDirtyCover(c *core.Ctx, rule string) {
	n := 0
	for _, dm := range dirtyModels(c) {
		ms := c.Prog.MethodSets.MethodSet(types.NewPointer(dm.t))
		for i := 0; i < ms.Len(); i++ {
			fn := c.Prog.FuncValue(ms.At(i).Obj().(*types.Func))
			if fn == nil || fn.Blocks == nil || fn.Synthetic != "" || len(fn.Params) == 0 {
				continue
			}
			if _, isPtr := fn.Signature.Recv().Type().(*types.Pointer); !isPtr {
				continue
			}
			recv := fn.Params[0]
			// stores to exported fields of the receiver
			var stores []*ssa.Store
			for _, b := range fn.Blocks {
				for _, in := range b.Instrs {
					st, ok := in.(*ssa.Store)
					if !ok {
						continue
					}
					fa, ok := st.Addr.(*ssa.FieldAddr)
					if !ok || core.Unwrap(fa.X) != ssa.Value(recv) {
						continue
					}
					if !token.IsExported(fieldNameOf(fa)) {
						continue
					}
					stores = append(stores, st)
				}
			}
			if len(stores) == 0 {
				continue
			}
			marks := dirtyMarks(fn, dm)
			if len(marks) == 0 {
				// the method does not deal with dirtiness at all: its callers do (setters used by
				// constructors/loaders, or mutators whose module wrapper marks dirty) — out of scope
				continue
			}
			for _, st := range stores {
				fa := st.Addr.(*ssa.FieldAddr)
				field := fieldNameOf(fa)
				n++
				key := core.ShortFn(fn) + "/" + field
				covered := ""
				for _, d := range marks {
					if onEveryPathThrough(fn, d, st) {
						covered = "marked dirty on every path through the assignment"
					}
				}
				if covered == "" {
					// conditional marking: accepted when some governing condition reads the assigned field
					for _, d := range marks {
						for _, g := range core.GatesBefore(d) {
							if core.DependsOn(g.If.Cond, func(v ssa.Value) bool {
								// the test has to read the value the field held before the assignment: a read
								// the store can reach compares the new value with itself
								if f2, ok := v.(*ssa.FieldAddr); ok && fieldNameOf(f2) == field && core.Unwrap(f2.X) == ssa.Value(recv) && !instrReaches(st, f2) {
									return true
								}
								return false
							}) {
								covered = "marked dirty when the change test on this very field says it changes"
							}
						}
					}
				}
				c.Check(covered != "", rule, key, st.Pos(), covered,
					fmt.Sprintf("%s assigns the encoded field %s, but the model is marked dirty only on some paths and the condition does not test %s: the new value can stay in memory without ever being written by Commit — a restarted node loads the old one", core.ShortFn(fn), field, field))
			}
		}
	}
	c.Floor(rule, n, 20, "assignments to encoded fields in model methods that manage a dirty marker")
}

// ---------------------------------------------------------------- C09.attach

// checkSymbolInfoAttach — Coins.Commit writes a ticker's SymbolInfo (its owner) only through the
// symbolInfo pointer of the base-version coin model: `if coin.IsSymbolInfoDirty() { … encode
// coin.symbolInfo … }`. For coins loaded from disk that pointer is nil until somebody attaches the
// SymbolInfo object, so a function that changes a SymbolInfo has to work on an object that is
// attached to a coin model in the same function (or was read from one): otherwise the change
// lives in the symbols map only and is gone after a restart — the previous owner owns the ticker
// again.
func checkSymbolInfoAttach(c *core.Ctx, rule string) {
	pk := core.PkgState + "/coins"
	model := c.Named(pk, "Model")
	si := c.Named(pk, "SymbolInfo")
	if model == nil || si == nil {
		c.Unk(rule, "coins.Model/SymbolInfo", token.NoPos, "types not found")
		return
	}
	// mutating methods of SymbolInfo: pointer-receiver methods that store to a field of the receiver
	mutators := map[*ssa.Function]bool{}
	ms := c.Prog.MethodSets.MethodSet(types.NewPointer(si))
	for i := 0; i < ms.Len(); i++ {
		fn := c.Prog.FuncValue(ms.At(i).Obj().(*types.Func))
		if fn == nil || fn.Blocks == nil {
			continue
		}
		for _, b := range fn.Blocks {
			for _, in := range b.Instrs {
				if st, ok := in.(*ssa.Store); ok {
					if fa, ok := st.Addr.(*ssa.FieldAddr); ok && core.Unwrap(fa.X) == ssa.Value(fn.Params[0]) && token.IsExported(fieldNameOf(fa)) {
						mutators[fn] = true
					}
				}
			}
		}
	}
	// Commit persists SymbolInfo only via Model.symbolInfo
	if commit := c.Fn("(*" + pk + ".Coins).Commit"); commit != nil {
		via := false
		for _, s := range c.GroupSites(commit) {
			if strings.HasSuffix(s.Callee, "rlp.EncodeToBytes") && strings.HasSuffix(core.Path(c.CallerArg(s.Arg(0))), ".symbolInfo") {
				via = true
			}
		}
		c.Check(via, rule, "Coins.Commit/via-model", commit.Pos(), "Commit encodes coin.symbolInfo", "Coins.Commit no longer persists the ticker info through coin.symbolInfo (the premise of this rule changed)")
	}
	n := 0
	for _, fn := range c.SrcFuncs(pk) {
		if fn.Signature.Recv() != nil && strings.HasSuffix(fn.Signature.Recv().Type().String(), "coins.SymbolInfo") {
			continue
		}
		for _, s := range core.Sites(fn) {
			sc := s.Common.StaticCallee()
			if sc == nil || !mutators[sc] {
				continue
			}
			n++
			obj := s.Recv()
			attached := false
			// read from a model
			if ld, ok := core.Unwrap(obj).(*ssa.UnOp); ok && ld.Op == token.MUL {
				if fa, ok := ld.X.(*ssa.FieldAddr); ok && fieldNameOf(fa) == "symbolInfo" {
					attached = true
				}
			}
			// stored into a model in this function
			for _, w := range c.FieldWrites(model, "symbolInfo") {
				if w.Fn != fn {
					continue
				}
				if st, ok := w.Instr.(*ssa.Store); ok && core.SameValue(st.Val, obj) {
					attached = true
				}
			}
			c.Check(attached, rule, core.ShortFn(fn)+"/"+sc.Name(), s.Pos(), "the changed SymbolInfo is the object attached to a coin model (what Commit persists)",
				"a SymbolInfo is changed ("+sc.Name()+") without being attached to a coin model in "+core.ShortFn(fn)+": Commit persists ticker info only through coin.symbolInfo, so for a coin loaded from disk the change is never written — after a restart the ticker has its previous owner again")
		}
	}
	// … and the attachment is never dropped: a coin model whose symbolInfo pointer is cleared can no
	// longer carry a pending (dirty) ticker-info change into Commit
	for _, w := range c.FieldWrites(model, "symbolInfo") {
		st, ok := w.Instr.(*ssa.Store)
		if !ok {
			continue
		}
		n++
		k, isConst := st.Val.(*ssa.Const)
		c.Check(!(isConst && k.Value == nil), rule, core.ShortFn(w.Fn)+"/symbolInfo-store", w.Pos(), "a coin model's symbolInfo is only ever set to a SymbolInfo object",
			"a coin model's symbolInfo pointer is cleared in "+core.ShortFn(w.Fn)+": a ticker-info change made earlier in the same block (EditCoinOwner) is attached to this model and would no longer reach Commit — after a restart the ticker has its previous owner again")
	}
	c.Floor(rule, n, 1, "call sites that change a SymbolInfo")
}

// ---------------------------------------------------------------- C09.evict

// evictExceptions: Commit functions whose tree removals need no in-memory eviction (confirmed by
// reading; one line of reason each).
var evictExceptions = map[string]string{
	"(*coreV2/state/accounts.Accounts).Commit":     "a zero balance: the in-memory big.Int 0 and the absent record read back as the same value",
	"(*coreV2/state/validators.Validators).Commit": "records of validators dropped by SetNewValidators, which already replaced the in-memory list",
	"(*coreV2/state/swap.SwapV2).Commit":           "order records and their price-index keys: the in-memory order caches are declined (C14); an emptied order is kept as a zero-volume tombstone that IsOrderAlreadyUsed understands",
	"(*coreV2/state/swap.Swap).Commit":             "legacy V1 module (not wired into the live state)",
}

// checkEvict — when a module's Commit removes a record from the tree because the in-memory object
// became empty, the in-memory entry has to go as well (delete from the module's map, or nil the
// slot): a running node that keeps the emptied object and a restarted node that finds nothing
// behave differently from then on (slot reuse, iteration order, "exists" answers).
func checkEvict(c *core.Ctx, rule string) {
	n := 0
	for _, fn := range c.AllFns {
		if fn.Synthetic != "" || fn.Name() != "Commit" || !strings.HasPrefix(core.PkgOf(fn), core.PkgState+"/") || fn.Signature.Recv() == nil {
			continue
		}
		evictsIn := func(f *ssa.Function) []ssa.Instruction {
			var out []ssa.Instruction
			for _, b := range f.Blocks {
				for _, in := range b.Instrs {
					switch x := in.(type) {
					case *ssa.Call:
						if bi, ok := x.Call.Value.(*ssa.Builtin); ok && bi.Name() == "delete" {
							if strings.Contains(core.Path(core.NormCall(&x.Call).Args[0]), ".") {
								out = append(out, x)
							}
						}
					case *ssa.Store:
						if k, ok := x.Val.(*ssa.Const); ok && k.Value == nil {
							switch x.Addr.(type) {
							case *ssa.IndexAddr, *ssa.FieldAddr:
								if _, isPtr := x.Val.Type().Underlying().(*types.Pointer); isPtr {
									out = append(out, x)
								}
							}
						}
					}
				}
			}
			return out
		}
		var evictions []ssa.Instruction
		for _, f := range append([]*ssa.Function{fn}, fn.AnonFuncs...) {
			evictions = append(evictions, evictsIn(f)...)
		}
		// an eviction done by a helper that only Commit calls happens where the helper is called
		for _, h := range c.Helpers(fn) {
			if len(evictsIn(h)) == 0 {
				continue
			}
			for _, hs := range core.Sites(fn) {
				if hs.Common.StaticCallee() == h {
					evictions = append(evictions, hs.Instr)
				}
			}
		}
		for _, s := range core.Sites(fn) {
			if !strings.HasSuffix(s.Callee, "iavl.MutableTree).Remove") {
				continue
			}
			n++
			key := core.ShortFn(fn) + "/Remove"
			if reason, ok := evictExceptions[core.ShortFn(fn)]; ok {
				c.OK(rule, key, s.Pos(), "confirmed exception: "+reason)
				continue
			}
			// candidates: the bulk removal of a deleted candidate's records (iterated key list)
			if strings.HasSuffix(core.ShortFn(fn), "candidates.Candidates).Commit") && strings.Contains(core.Path(s.Arg(0)), "[") {
				c.OK(rule, key+"/deleted-candidate-records", s.Pos(), "records of a candidate that DeleteCandidate already removed from the in-memory table")
				continue
			}
			paired := false
			sb := s.Block()
			for _, e := range evictions {
				eb := e.Block()
				if eb.Parent() != fn {
					continue
				}
				if eb == sb || sb.Dominates(eb) && sameGates(s.Instr, e) || eb.Dominates(sb) && sameGates(s.Instr, e) {
					paired = true
				}
			}
			c.Check(paired, rule, key, s.Pos(), "the record removed from the tree is evicted from memory in the same branch", "a record is removed from the tree but its in-memory entry is kept: a node that keeps running and a node restarted from disk diverge (the restarted one has no such entry)")
		}
	}
	c.Floor(rule, n, 8, "tree removals in module Commit functions")
}

// sameGates: both instructions are governed by the same set of conditional edges.
func sameGates(a, b ssa.Instruction) bool {
	ga, gb := core.GatesBefore(a), core.GatesBefore(b)
	if len(ga) != len(gb) {
		return false
	}
	for _, x := range ga {
		found := false
		for _, y := range gb {
			if x.If == y.If && x.PassTrue == y.PassTrue {
				found = true
			}
		}
		if !found {
			return false
		}
	}
	return true
}

// instrReaches: control can flow from instruction a to instruction b.
func instrReaches(a, b ssa.Instruction) bool {
	if a.Block() == b.Block() {
		if core.InstrIndex(a) < core.InstrIndex(b) {
			return true
		}
		return core.InCycle(a.Block())
	}
	for _, s := range a.Block().Succs {
		if s == b.Block() || core.ReachFrom(s, nil)[b.Block()] {
			return true
		}
	}
	return false
}

// ---------------------------------------------------------------- C09.lazy

// checkLazyLoad — a module field that is filled from the tree on first use by a loader of the
// shape `if len(m.F) != 0 { return }; m.F = make(…); … tree.Get … m.F[k] = v` holds the whole
// persisted table once loaded, and Commit writes the table back from it. A method that inserts
// into, or reads, F without having called the loader works on an empty table in a freshly started
// process: a lookup misses what is on disk, and an insert followed by Commit overwrites the stored
// table with the single new entry. Every access to F outside the loader is therefore dominated by
// a call of the loader, except in the constructor, in the module's Commit (which writes only when
// an inserter — that did load — marked the table dirty) and in the genesis importer.
func checkLazyLoad(c *core.Ctx, rule string) {
	type lazy struct {
		t      *types.Named
		field  string
		loader *ssa.Function
	}
	var lz []lazy
	for _, fn := range c.AllFns {
		if !strings.HasPrefix(core.PkgOf(fn), core.PkgState+"/") || fn.Blocks == nil || fn.Signature.Recv() == nil || fn.Synthetic != "" || len(fn.Params) != 1 {
			continue
		}
		recv := fn.Params[0]
		t := namedOf(recv.Type())
		if t == nil {
			continue
		}
		// stores of a fresh map into a receiver field …
		for _, b := range fn.Blocks {
			for _, in := range b.Instrs {
				st, ok := in.(*ssa.Store)
				if !ok {
					continue
				}
				fa, ok := st.Addr.(*ssa.FieldAddr)
				if !ok || core.Unwrap(fa.X) != ssa.Value(recv) {
					continue
				}
				if _, ok := core.Unwrap(st.Val).(*ssa.MakeMap); !ok {
					continue
				}
				field := fieldNameOf(fa)
				// … guarded by an early return that tests the field itself, and followed by a tree read
				gated := false
				for _, g := range core.GatesBefore(st) {
					if core.DependsOn(g.If.Cond, func(v ssa.Value) bool {
						f2, ok := v.(*ssa.FieldAddr)
						return ok && fieldNameOf(f2) == field && core.Unwrap(f2.X) == ssa.Value(recv)
					}) {
						gated = true
					}
				}
				readsTree := false
				for _, s := range core.Sites(fn) {
					mn := ""
					if s.Common.IsInvoke() {
						mn = s.Common.Method.Name()
					} else if sc := s.Common.StaticCallee(); sc != nil && sc.Pkg != nil && strings.Contains(sc.Pkg.Pkg.Path(), "iavl") {
						mn = sc.Name()
					}
					if mn == "Get" || mn == "IterateRange" || mn == "Iterate" {
						readsTree = true
					}
				}
				if gated && readsTree {
					lz = append(lz, lazy{t: t, field: field, loader: fn})
				}
			}
		}
	}
	n := 0
	for _, l := range lz {
		ms := c.Prog.MethodSets.MethodSet(types.NewPointer(l.t))
		for i := 0; i < ms.Len(); i++ {
			fn := c.Prog.FuncValue(ms.At(i).Obj().(*types.Func))
			if fn == nil || fn.Blocks == nil || fn.Synthetic != "" || fn == l.loader {
				continue
			}
			name := fn.Name()
			if name == "Commit" || c.GroupRoot(fn).Name() == "Commit" || strings.HasPrefix(name, "Set") && strings.Contains(core.ShortFn(fn), "Deleted") {
				continue
			}
			fns := append([]*ssa.Function{fn}, fn.AnonFuncs...)
			k := 0
			for _, f := range fns {
				for _, b := range f.Blocks {
					for _, in := range b.Instrs {
						fa, ok := in.(*ssa.FieldAddr)
						if !ok || fieldNameOf(fa) != l.field {
							continue
						}
						if nt := namedOf(fa.X.Type()); nt == nil || nt.Obj() != l.t.Obj() {
							continue
						}
						k++
						n++
						key := fmt.Sprintf("%s/%s#%d", core.ShortFn(fn), l.field, k)
						loaded := false
						for _, s := range core.Sites(f) {
							if s.Common.StaticCallee() == l.loader && core.Dominates(s.Instr, fa) {
								loaded = true
							}
						}
						c.Check(loaded, rule, key, fa.Pos(), "the lazily loaded table "+l.field+" is accessed after "+l.loader.Name()+"()",
							fmt.Sprintf("%s accesses the lazily loaded table %s without calling %s first: in a freshly started process the table is empty — a lookup misses what is stored, and an insert makes Commit overwrite the stored table with the new entries only", core.ShortFn(fn), l.field, l.loader.Name()))
					}
				}
			}
		}
	}
	c.Floor(rule, n, 4, "accesses to lazily loaded module tables outside their loaders")
}

// ---------------------------------------------------------------- C09.persist

// checkPersistAll — a module's Commit writes a dirty record under its key. If that write is
// made conditional on the *value* (write the accumulated reward only when it is positive, "a
// missing key reads as zero anyway"), a value that went back to its zero state is not written
// and the key keeps the previous value: the running node is unaffected, a restarted one loads
// the stale value (the period's rewards are paid twice). Decided for every tree write in the
// Commit methods of the state modules: no condition on the way to the write reads the amount
// that is being written — unless its other outcome removes the key.
func checkPersistAll(c *core.Ctx, rule string) {
	n := 0
	amountSources := func(v ssa.Value) map[string]bool {
		out := map[string]bool{}
		core.DependsOn(v, func(y ssa.Value) bool {
			if !isBigPtr(y.Type()) {
				return false
			}
			switch x := y.(type) {
			case *ssa.Call:
				if sc := x.Call.StaticCallee(); sc != nil && sc.Signature.Recv() != nil && len(core.NormCall(&x.Call).Args) > 0 && !strings.Contains(core.CalleeName(core.NormCall(&x.Call)), "math/big") {
					out[sc.String()+"@"+core.Unwrap(core.NormCall(&x.Call).Args[0]).Name()] = true
				}
			case *ssa.UnOp:
				if fa, ok := x.X.(*ssa.FieldAddr); ok {
					out["field:"+fieldNameOf(fa)+"@"+core.Unwrap(fa.X).Name()] = true
				}
			}
			return false
		})
		return out
	}
	for _, fn := range c.AllFns {
		if fn.Name() != "Commit" || fn.Blocks == nil || !strings.HasPrefix(core.PkgOf(fn), core.PkgState+"/") || legacyV1(fn) {
			continue
		}
		group := append([]*ssa.Function{fn}, c.Helpers(fn)...)
		for _, g := range group {
			k := 0
			for _, s := range core.Sites(g) {
				if !strings.HasSuffix(s.Callee, "iavl.MutableTree).Set") || len(s.Common.Args) < 3 {
					continue
				}
				n++
				k++
				val := s.Common.Args[2]
				srcs := amountSources(val)
				bad := ""
				// the outermost decision on the written amount that governs this write
				var decision *ssa.BasicBlock
				for _, gt := range core.GatesBefore(s.Instr) {
					shared := false
					for src := range amountSources(gt.If.Cond) {
						if srcs[src] {
							shared = true
						}
					}
					if shared && (decision == nil || gt.If.Block().Dominates(decision)) {
						decision = gt.If.Block()
					}
				}
				if decision != nil {
					// whatever the amount turns out to be, the key is written or removed before the
					// iteration (or the function) ends — or the process stops
					writes := map[*ssa.BasicBlock]bool{}
					for _, blk := range g.Blocks {
						for _, in := range blk.Instrs {
							if call, ok := in.(*ssa.Call); ok {
								cn := core.CalleeName(core.NormCall(&call.Call))
								if strings.HasSuffix(cn, "iavl.MutableTree).Set") || strings.HasSuffix(cn, "iavl.MutableTree).Remove") {
									writes[blk] = true
								}
							}
						}
					}
					var header *ssa.BasicBlock
					if core.InCycle(s.Block()) {
						loop := map[*ssa.BasicBlock]bool{s.Block(): true}
						for x := range core.ReachFrom(s.Block(), nil) {
							if core.ReachFrom(x, nil)[s.Block()] {
								loop[x] = true
							}
						}
						for x := range loop {
							for _, pr := range x.Preds {
								if !loop[pr] {
									header = x
								}
							}
						}
					}
					where := ""
					if iff := core.IfOf(decision); iff != nil {
						where = c.PosStr(iff.Cond.Pos())
					}
					if where == "" {
						where = fmt.Sprintf("block %d of %s", decision.Index, g.Name())
					}
					type st struct {
						b        *ssa.BasicBlock
						excluded string
					}
					seen := map[st]bool{}
					var walk func(b *ssa.BasicBlock, excl map[int64]bool, subject ssa.Value)
					walk = func(b *ssa.BasicBlock, excl map[int64]bool, subject ssa.Value) {
						if bad != "" || writes[b] {
							return
						}
						key := st{b, fmt.Sprint(excl)}
						if seen[key] {
							return
						}
						seen[key] = true
						if b == header {
							bad = where
							return
						}
						if len(b.Instrs) > 0 {
							switch b.Instrs[len(b.Instrs)-1].(type) {
							case *ssa.Return:
								bad = where
								return
							case *ssa.Panic:
								return
							}
						}
						iff := core.IfOf(b)
						for i, sc := range b.Succs {
							ne := excl
							if iff != nil {
								if bin, ok := iff.Cond.(*ssa.BinOp); ok && (bin.Op == token.EQL || bin.Op == token.NEQ) {
									if kk, isK := core.ConstInt(bin.Y); isK {
										if call, isCall := core.Unwrap(bin.X).(*ssa.Call); isCall && core.CalleeName(core.NormCall(&call.Call)) == "(*math/big.Int).Sign" && (subject == nil || subject == ssa.Value(call)) {
											eq := (bin.Op == token.EQL) == (i == 0)
											if eq {
												if excl[kk] {
													continue // contradicts an earlier decision on the same Sign()
												}
											} else {
												ne = map[int64]bool{}
												for x := range excl {
													ne[x] = true
												}
												ne[kk] = true
												if ne[-1] && ne[0] && ne[1] {
													continue // a sign is −1, 0 or +1
												}
											}
											walk(sc, ne, call)
											continue
										}
									}
								}
							}
							walk(sc, ne, subject)
						}
					}
					for i, sc := range decision.Succs {
						// re-enter through the decision itself so that its own comparison is accounted for
						_ = i
						_ = sc
					}
					seen = map[st]bool{}
					// start at the decision block (its terminator is evaluated by walk)
					writesBackup := writes[decision]
					writes[decision] = false
					walk(decision, map[int64]bool{}, nil)
					writes[decision] = writesBackup
				}
				c.Check(bad == "", rule, fmt.Sprintf("%s/Set#%d", core.ShortFn(g), k), s.Pos(), "the record is written whatever its value (or the key is removed)",
					"this tree write is skipped depending on the very amount it writes (condition at "+bad+") and the key is not removed instead: when the amount returns to the skipped state the tree keeps the old value — a restarted node loads it")
			}
		}
	}
	c.Floor(rule, n, 20, "tree writes in the Commit methods of the state modules")
}

// ---------------------------------------------------------------- C09.precommit

// checkNoCacheDropInCommit — a module's Commit runs BEFORE the tree version is saved and before
// the modules are switched to the new immutable tree. A cache field that a getter fills lazily
// from `immutableTree()` must therefore not be emptied by Commit: a reader that comes between the
// module's Commit and the switch (an API query, the next CheckTx) finds the cache empty, decodes
// the PREVIOUS version's record and caches that — from then on this node computes with the old
// record (the old price table) while its state holds the new one.
func checkNoCacheDropInCommit(c *core.Ctx, rule string) {
	n := 0
	for _, fn := range c.AllFns {
		if fn.Synthetic != "" || fn.Name() != "Commit" || !strings.HasPrefix(core.PkgOf(fn), core.PkgState+"/") || fn.Signature.Recv() == nil || fn.Blocks == nil || legacyV1(fn) {
			continue
		}
		t := namedOf(fn.Signature.Recv().Type())
		if t == nil {
			continue
		}
		n++
		// fields a method other than Commit fills from the tree
		lazy := map[string]*ssa.Function{}
		ms := c.Prog.MethodSets.MethodSet(types.NewPointer(t))
		for i := 0; i < ms.Len(); i++ {
			m := c.Prog.FuncValue(ms.At(i).Obj().(*types.Func))
			if m == nil || m.Blocks == nil || m == fn || c.GroupRoot(m) == fn {
				continue
			}
			readsTree := false
			for _, s := range core.Sites(m) {
				if strings.HasSuffix(s.Callee, ".immutableTree") || strings.HasSuffix(s.Callee, "iavl.ImmutableTree).Get") {
					readsTree = true
				}
			}
			if !readsTree {
				continue
			}
			for _, b := range m.Blocks {
				for _, in := range b.Instrs {
					st, ok := in.(*ssa.Store)
					if !ok {
						continue
					}
					if fa, ok := st.Addr.(*ssa.FieldAddr); ok && namedOf(fa.X.Type()) == t {
						if k, isK := core.Unwrap(st.Val).(*ssa.Const); isK && k.Value == nil {
							continue
						}
						lazy[fieldNameOf(fa)] = m
					}
				}
			}
		}
		bad := ""
		for _, g := range append([]*ssa.Function{fn}, c.Helpers(fn)...) {
			for _, b := range g.Blocks {
				for _, in := range b.Instrs {
					st, ok := in.(*ssa.Store)
					if !ok {
						continue
					}
					fa, ok := st.Addr.(*ssa.FieldAddr)
					if !ok || namedOf(fa.X.Type()) != t {
						continue
					}
					k, isK := core.Unwrap(st.Val).(*ssa.Const)
					if !isK || k.Value != nil {
						continue
					}
					if _, isPtr := st.Val.Type().Underlying().(*types.Pointer); !isPtr {
						continue
					}
					if m, ok := lazy[fieldNameOf(fa)]; ok {
						bad = fmt.Sprintf("%s (refilled by %s) at %s", fieldNameOf(fa), m.Name(), c.PosStr(st.Pos()))
					}
				}
			}
		}
		c.Check(bad == "", rule, core.ShortFn(fn), fn.Pos(), "Commit drops no cache that a getter refills from the (still previous) immutable tree",
			"Commit empties the cache field "+bad+": until the modules are switched to the new tree a reader refills it from the previous version and this node keeps computing with the old record")
	}
	c.Floor(rule, n, 10, "module Commit functions")
}
