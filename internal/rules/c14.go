package rules

import (
	"fmt"
	"go/token"
	"strings"

	"golang.org/x/tools/go/ssa"

	"verif/internal/core"
)

const pkgSwap = core.PkgState + "/swap"

func init() {
	register(&RuleSet{
		Meta: core.PropertyMeta{
			ID: "C14",
			Explanation: "Price, priority order, partial-fill price retention and the sorted-id caches are arithmetic / ordering semantics and are NOT decided. Decided: the ownership, once-only and exact-refund skeleton of order cancellation and expiry. " +
				"(owner) the live RemoveLimitOrder handler reaches PairRemoveLimitOrder(data.ID) only behind `GetOrder(data.ID) != nil` and `order.Owner.Compare(tx.Sender()) == 0` on that same order, and credits tx.Sender(); " +
				"(once) it is also behind `IsOrderAlreadyUsed(data.ID)` false; inside removeLimitOrder the refund is computed only after, for an order touched in this block, the already-used and empty tests on the live order, and every path that returns a non-zero refund passes pair.updateOrders on that order (which subtracts its amounts from the live order, closing it); " +
				"(refund) the refunded volume is a copy of WantSell of the very object handed to updateOrders (on every path: the refund and the closing act on the same order, so amounts filled earlier in the block are not refunded — the difference between the stored copy and the live order), in the order's sell coin Coin1, and the same value is reported to the supply checker; the handler credits exactly the (coin, volume) pair returned; ExpireOrders credits order.Owner with the pair returned for that order and skips zero volumes; orders closed for falling below the minimum volume are refunded their remaining WantSell in Coin1 to their Owner; " +
				"(who) removeLimitOrder is called only by PairRemoveLimitOrder and ExpireOrders, and PairRemoveLimitOrder only by the live handler.",
			Assumptions: stdAssumptions,
			Rules:       []string{"C14.owner", "C14.once", "C14.refund", "C14.who", "C14.minvol", "C14.prec"},
		},
		Run: runC14,
	})
}

func runC14(c *core.Ctx) {
	// the amounts of a partial fill are computed from the order's price in the functions that build
	// the fill records (a Limit per order touched): no 53-bit intermediate there
	defer func() {
		scope := map[*ssa.Function]bool{}
		for _, fn := range c.SrcFuncs(core.PkgState + "/swap") {
			builds := false
			for _, b := range fn.Blocks {
				for _, in := range b.Instrs {
					if al, ok := in.(*ssa.Alloc); ok {
						if n := namedOf(al.Type()); n != nil && n.Obj().Name() == "Limit" {
							builds = true
						}
					}
				}
			}
			if builds {
				scope[fn] = true
				for _, h := range c.Helpers(fn) {
					scope[h] = true
				}
			}
		}
		checkFloatPrecisionIn(c, "C14.prec", []string{core.PkgState + "/swap"}, "the functions of the swap module that build fill records (and their helpers)", "so the amount computed from the order's price (a ratio of two amounts of up to 10^33) is off by far more than the one unit of rounding a fill may cost its owner", 2,
			func(fn *ssa.Function) bool { return scope[fn] })
	}()
	defer checkMinimumVolume(c, "C14.minvol")
	var m *RunModel
	for _, lm := range LiveModels(c, "C14.owner") {
		if lm.H.ConstName == "TypeRemoveLimitOrder" {
			m = lm
		}
	}
	if m == nil {
		c.Unk("C14.owner", "RemoveLimitOrder", token.NoPos, "no live handler for TypeRemoveLimitOrder")
		return
	}
	name := m.H.TypeName
	rms := findMut(m, "Swap", "PairRemoveLimitOrder")
	if len(rms) != 1 {
		c.Bad("C14.owner", name+"/shape", m.Fn.Pos(), fmt.Sprintf("%d PairRemoveLimitOrder calls in the live handler (expected one)", len(rms)))
		return
	}
	rm := rms[0]
	idPath := strings.TrimPrefix(core.Path(rm.Arg(0)), "&")
	facts := c.FactsAt(rm.Instr, 3)
	// owner gates
	exists := factCallOutcome(facts, "GetOrder", func(cf core.CallFact, nilCmp, isNil bool) bool {
		return nilCmp && !isNil && cf.ArgPath(0) == idPath
	})
	c.Check(exists, "C14.owner", name+"/order-exists", rm.Pos(), "removal is behind GetOrder("+idPath+") != nil", "the order is removed without first establishing that it exists")
	ownerOK := false
	for _, f := range facts {
		cf, ok := f.AsCall()
		if !ok || cf.MethodName() != "Compare" {
			continue
		}
		// order.Owner.Compare(sender) != 0 is false  /  == 0 is true
		eqZero := (cf.Op == token.NEQ && cf.Const == 0 && !f.Truth) || (cf.Op == token.EQL && cf.Const == 0 && f.Truth)
		if !eqZero {
			continue
		}
		recv, arg := cf.RecvPath(), cf.ArgPath(0)
		isOwnerOf := func(p string) bool {
			return strings.HasSuffix(p, ".GetOrder("+idPath+").Owner")
		}
		isSender := func(p string) bool { return p == m.TxPath+".Sender()#0" }
		if (isOwnerOf(recv) && isSender(arg)) || (isOwnerOf(arg) && isSender(recv)) {
			ownerOK = true
		}
	}
	c.Check(ownerOK, "C14.owner", name+"/owner-is-sender", rm.Pos(), "removal is behind GetOrder(id).Owner == tx.Sender()", "the order is removed without comparing its owner with the transaction's sender")
	used := factCallOutcome(facts, "IsOrderAlreadyUsed", func(cf core.CallFact, nilCmp, isNil bool) bool {
		return !nilCmp && cf.Op == token.ILLEGAL && !cf.Truth && cf.ArgPath(0) == idPath
	})
	c.Check(used, "C14.once", name+"/not-already-used", rm.Pos(), "removal is behind IsOrderAlreadyUsed(id) == false", "an order already consumed in this block (e.g. by the fee swap of this very transaction) can be removed and refunded again")
	// the credit: AddBalance(sender, coin#0, volume#1) of the removal's results
	var credit *core.Site
	for _, s := range findMut(m, "Accounts", "AddBalance") {
		if extractOf(s.Arg(2), rm.Value(), 1) {
			credit = s
		}
	}
	if credit == nil {
		c.Bad("C14.refund", name+"/credit", rm.Pos(), "the volume returned by PairRemoveLimitOrder is not credited to anybody")
	} else {
		c.Check(m.isTxSender(credit.Arg(0)) && extractOf(credit.Arg(1), rm.Value(), 0), "C14.refund", name+"/credit", credit.Pos(),
			"AddBalance(tx.Sender(), coin, volume) with exactly the (coin, volume) PairRemoveLimitOrder returned", "the refund is credited to another account or in another coin than PairRemoveLimitOrder returned")
	}

	// ---- the module side
	swapT := c.Named(pkgSwap, "SwapV2")
	if swapT == nil {
		c.Unk("C14.refund", "SwapV2", token.NoPos, "type not found")
		return
	}
	rl := c.Method(swapT, "removeLimitOrder")
	prl := c.Method(swapT, "PairRemoveLimitOrder")
	exp := c.Method(swapT, "ExpireOrders")
	little := c.Method(swapT, "handleLittleExpiredOrders")
	if rl == nil || prl == nil || exp == nil || little == nil {
		c.Unk("C14.refund", "SwapV2/methods", token.NoPos, "removeLimitOrder / PairRemoveLimitOrder / ExpireOrders / handleLittleExpiredOrders not all found")
		return
	}
	checkRemoveLimitOrder(c, rl)
	checkExpire(c, exp, rl)
	checkLittle(c, little)

	// ---- who
	n := 0
	for _, fn := range c.AllFns {
		if fn.Synthetic != "" {
			continue
		}
		for _, s := range core.Sites(fn) {
			switch {
			case s.Common.StaticCallee() == rl:
				n++
				c.Check(fn == prl || fn == exp, "C14.who", "removeLimitOrder←"+core.ShortFn(fn), s.Pos(), "called by PairRemoveLimitOrder / ExpireOrders", "removeLimitOrder (which pays out an order's escrow) has a new caller")
			case methodName(s) == "PairRemoveLimitOrder" && (s.Common.StaticCallee() == prl || s.Common.IsInvoke()):
				n++
				ok := fn == m.Fn || (strings.HasPrefix(core.PkgOf(fn), core.PkgTx) && isDataRun(fn))
				c.Check(ok, "C14.who", "PairRemoveLimitOrder←"+core.ShortFn(fn), s.Pos(), "called by the RemoveLimitOrder handler", "PairRemoveLimitOrder is called outside the RemoveLimitOrder handler (no owner gate in front)")
			}
		}
	}
	c.Floor("C14.who", n, 3, "call sites of the order-removal functions")
}

// resolveRet returns the value returned in position i: for functions with defers the results are
// spilled to cells and reloaded after `rundefers`; the value is then the last store to the cell in
// the returning block.
func resolveRet(r *ssa.Return, i int) ssa.Value {
	v := r.Results[i]
	ld, ok := v.(*ssa.UnOp)
	if !ok || ld.Op != token.MUL {
		return v
	}
	al, ok := ld.X.(*ssa.Alloc)
	if !ok {
		return v
	}
	var last ssa.Value
	for _, in := range r.Block().Instrs {
		if st, ok := in.(*ssa.Store); ok && st.Addr == al {
			last = st.Val
		}
	}
	if last != nil {
		return last
	}
	return v
}

// limitFieldLoad: v is a load of <obj>.<field> of a *swap.Limit; returns obj.
func limitFieldLoad(v ssa.Value, field string) ssa.Value {
	v = core.Unwrap(v)
	ld, ok := v.(*ssa.UnOp)
	if !ok || ld.Op != token.MUL {
		return nil
	}
	fa, ok := ld.X.(*ssa.FieldAddr)
	if !ok || fieldNameOf(fa) != field {
		return nil
	}
	// promoted fields of the embedded PairKey: order.Coin1 is order.PairKey.Coin1
	if inner, ok := fa.X.(*ssa.FieldAddr); ok && fieldNameOf(inner) == "PairKey" {
		fa = inner
	}
	if !strings.HasSuffix(fa.X.Type().String(), "swap.Limit") {
		return nil
	}
	return fa.X
}

// copyOfField: v = big.NewInt(0).Set(<obj>.<field>) (or new(big.Int).Set); returns obj.
func copyOfField(v ssa.Value, field string) ssa.Value {
	call, ok := core.Unwrap(v).(*ssa.Call)
	if !ok || core.CalleeName(core.NormCall(&call.Call)) != "(*math/big.Int).Set" || len(core.NormCall(&call.Call).Args) != 2 {
		return nil
	}
	if owned, _ := stateOwnedShallow(core.NormCall(&call.Call).Args[0]); owned {
		return nil
	}
	return limitFieldLoad(core.NormCall(&call.Call).Args[1], field)
}

// stateOwnedShallow: the receiver of Set is itself a field load (not a fresh big.Int).
func stateOwnedShallow(v ssa.Value) (bool, string) {
	if ld, ok := core.Unwrap(v).(*ssa.UnOp); ok && ld.Op == token.MUL {
		if _, ok := ld.X.(*ssa.FieldAddr); ok {
			return true, "field"
		}
	}
	return false, ""
}

func checkRemoveLimitOrder(c *core.Ctx, rl *ssa.Function) {
	key := "SwapV2.removeLimitOrder"
	// the closing call
	var upd []*core.Site
	for _, s := range core.Sites(rl) {
		if methodName(s) == "updateOrders" {
			upd = append(upd, s)
		}
	}
	if len(upd) != 1 {
		c.Bad("C14.once", key+"/close", rl.Pos(), fmt.Sprintf("%d updateOrders calls (expected exactly one)", len(upd)))
		return
	}
	// element stored into the slice passed to updateOrders
	var closed ssa.Value
	for _, o := range core.Origins(upd[0].Arg(0)) {
		sl, ok := o.(*ssa.Slice)
		if !ok {
			continue
		}
		al, ok := sl.X.(*ssa.Alloc)
		if !ok {
			continue
		}
		for _, r := range *al.Referrers() {
			if ia, ok := r.(*ssa.IndexAddr); ok {
				for _, rr := range *ia.Referrers() {
					if st, ok := rr.(*ssa.Store); ok && st.Addr == ia {
						closed = st.Val
					}
				}
			}
		}
	}
	if closed == nil {
		c.Unk("C14.refund", key+"/closed-object", upd[0].Pos(), "the order handed to updateOrders was not recognised")
		return
	}
	// the object that is refunded and closed is the LIVE order whenever the order was touched in
	// this block: one of its origins is pair.getOrder(id), reached under isDirtyOrder(id)
	live := false
	for _, o := range core.Origins(closed) {
		if call, ok := o.(*ssa.Call); ok && methodNameOfCall(call) == "getOrder" {
			for _, f := range c.FactsAt(call, 0) {
				if cf, ok := f.AsCall(); ok && cf.MethodName() == "isDirtyOrder" && f.Truth {
					live = true
				}
			}
		}
	}
	c.Check(live, "C14.refund", key+"/live-order-when-dirty", upd[0].Pos(), "for an order touched in this block the refunded/closed object is pair.getOrder(id), the live order",
		"the order that is refunded and closed is never replaced by the live order of the pair (pair.getOrder) when the order was touched in this block: the refund is computed from the copy stored at the last commit, so amounts filled earlier in the block are refunded too")
	// returns: classify (coin, volume)
	nz := 0
	for _, r := range core.Returns(rl) {
		if rl.Recover != nil && r.Block() == rl.Recover {
			continue
		}
		vol := resolveRet(r, 1)
		if call, ok := core.Unwrap(vol).(*ssa.Call); ok && core.CalleeName(core.NormCall(&call.Call)) == "math/big.NewInt" {
			if k, ok := core.ConstInt(core.NormCall(&call.Call).Args[0]); ok && k == 0 {
				continue // "nothing to refund"
			}
		}
		nz++
		obj := copyOfField(vol, "WantSell")
		sameObj := obj != nil && core.Unwrap(obj) == core.Unwrap(closed)
		c.Check(sameObj, "C14.refund", key+"/refund-is-closed-order", r.Pos(),
			"the refund is a copy of WantSell of the very order object handed to updateOrders",
			"the refunded volume is not read from the order object that updateOrders closes (e.g. it is read from the stored copy before the live order is substituted): amounts already filled in this block would be refunded as well")
		coinObj := limitFieldLoad(resolveRet(r, 0), "Coin1")
		c.Check(coinObj != nil && core.Unwrap(coinObj) == core.Unwrap(closed), "C14.refund", key+"/refund-coin", r.Pos(), "refund coin is the closed order's Coin1 (its sell coin after normalisation)", "the refund coin is not Coin1 of the closed order")
		// must pass updateOrders
		avoid := map[*ssa.BasicBlock]bool{upd[0].Block(): true}
		reach := core.ReachFrom(rl.Blocks[0], avoid)
		c.Check(!reach[r.Block()] || r.Block() == upd[0].Block(), "C14.once", key+"/closed-on-every-refund-path", r.Pos(), "every path to this refund passes updateOrders (the order is closed)", "a refund can be returned without closing the order: it could be cancelled again")
		// gates on the dirty branch: the refund is dominated, when isDirtyOrder, by !isOrderAlreadyUsed and !isEmpty
	}
	c.Check(nz >= 1, "C14.refund", key+"/has-refund-return", rl.Pos(), "a refunding return exists", "no refunding return recognised")
	// the dirty-branch gates: returns of zero exist under isOrderAlreadyUsed / isEmpty / nil
	var sawUsed, sawEmpty bool
	for _, b := range rl.Blocks {
		iff := core.IfOf(b)
		if iff == nil {
			continue
		}
		conds := []ssa.Value{iff.Cond}
		if call, ok := core.Unwrap(iff.Cond).(*ssa.Call); ok {
			switch methodNameOfCall(call) {
			case "isOrderAlreadyUsed", "IsOrderAlreadyUsed":
				if returnsZeroOnly(b.Succs[0]) {
					sawUsed = true
				}
			case "isEmpty":
				if returnsZeroOnly(b.Succs[0]) {
					sawEmpty = true
				}
			}
		}
		_ = conds
	}
	c.Check(sawUsed, "C14.once", key+"/used-gate", rl.Pos(), "`isOrderAlreadyUsed(id)` ⇒ return (0, 0)", "removeLimitOrder no longer returns nothing for an order already used in this block")
	c.Check(sawEmpty, "C14.once", key+"/empty-gate", rl.Pos(), "live order `isEmpty()` ⇒ return (0, 0)", "removeLimitOrder no longer returns nothing for an emptied order")
	// supply checker told the same value
	told := false
	for _, s := range core.Sites(rl) {
		if methodName(s) == "AddCoin" {
			if neg, ok := core.Unwrap(s.Arg(1)).(*ssa.Call); ok && core.CalleeName(core.NormCall(&neg.Call)) == "(*math/big.Int).Neg" {
				if obj := copyOfField(core.NormCall(&neg.Call).Args[1], "WantSell"); obj != nil && core.Unwrap(obj) == core.Unwrap(closed) {
					told = true
				}
			}
		}
	}
	c.Check(told, "C14.refund", key+"/checker", rl.Pos(), "Checker.AddCoin(order.Coin1, −refund) with the same refund", "the supply checker is not told the refunded amount")
}

func methodNameOfCall(call *ssa.Call) string {
	if call.Call.IsInvoke() {
		return call.Call.Method.Name()
	}
	if sc := call.Call.StaticCallee(); sc != nil {
		return sc.Name()
	}
	return ""
}

// returnsZeroOnly: block b ends in a return whose volume result is big.NewInt(0).
func returnsZeroOnly(b *ssa.BasicBlock) bool {
	if len(b.Instrs) == 0 {
		return false
	}
	r, ok := b.Instrs[len(b.Instrs)-1].(*ssa.Return)
	if !ok || len(r.Results) != 2 {
		return false
	}
	call, ok := core.Unwrap(resolveRet(r, 1)).(*ssa.Call)
	if !ok || core.CalleeName(core.NormCall(&call.Call)) != "math/big.NewInt" {
		return false
	}
	k, ok := core.ConstInt(core.NormCall(&call.Call).Args[0])
	return ok && k == 0
}

func checkExpire(c *core.Ctx, exp, rl *ssa.Function) {
	key := "SwapV2.ExpireOrders"
	var rm *core.Site
	for _, s := range core.Sites(exp) {
		if s.Common.StaticCallee() == rl {
			rm = s
		}
	}
	if rm == nil {
		c.Bad("C14.refund", key+"/shape", exp.Pos(), "ExpireOrders does not call removeLimitOrder")
		return
	}
	var credit *core.Site
	for _, s := range core.Sites(exp) {
		if methodName(s) == "AddBalance" && extractOf(s.Arg(2), rm.Value(), 1) {
			credit = s
		}
	}
	if credit == nil {
		c.Bad("C14.refund", key+"/credit", rm.Pos(), "the volume returned for an expired order is not credited")
		return
	}
	owner := limitFieldLoad(credit.Arg(0), "Owner")
	// Owner is an array value: field read of the loaded struct or load of FieldAddr
	if owner == nil {
		if ld, ok := core.Unwrap(credit.Arg(0)).(*ssa.UnOp); ok {
			if fa, ok := ld.X.(*ssa.FieldAddr); ok && fieldNameOf(fa) == "Owner" {
				owner = fa.X
			}
		}
	}
	c.Check(owner != nil && core.Unwrap(owner) == core.Unwrap(rm.Arg(0)) && extractOf(credit.Arg(1), rm.Value(), 0), "C14.refund", key+"/credit", credit.Pos(),
		"AddBalance(order.Owner, coin, volume) for the order just removed, with the pair removeLimitOrder returned", "an expired order's refund goes to another account / coin than the removed order's")
	// skip gate: volume.Sign() == 0 ⇒ continue
	gated := false
	for _, f := range c.FactsAt(credit.Instr, 0) {
		if cf, ok := f.AsCall(); ok && cf.MethodName() == "Sign" && ((cf.Op == token.EQL && cf.Const == 0 && !f.Truth) || (cf.Op == token.NEQ && cf.Const == 0 && f.Truth)) {
			if extractOf(core.NormCall(&cf.Call.Call).Args[0], rm.Value(), 1) {
				gated = true
			}
		}
	}
	c.Check(gated, "C14.once", key+"/skip-zero", credit.Pos(), "orders that return a zero volume (already used) are skipped", "ExpireOrders credits and reports orders whose removal returned nothing")
	// selection: only orders with Height ≤ beforeHeight
}

func checkLittle(c *core.Ctx, fn *ssa.Function) {
	key := "SwapV2.handleLittleExpiredOrders"
	n := 0
	for _, s := range core.Sites(fn) {
		if methodName(s) != "AddBalance" {
			continue
		}
		n++
		obj := copyOfField(s.Arg(2), "WantSell")
		coin := limitFieldLoad(s.Arg(1), "Coin1")
		var owner ssa.Value
		if ld, ok := core.Unwrap(s.Arg(0)).(*ssa.UnOp); ok {
			if fa, ok := ld.X.(*ssa.FieldAddr); ok && fieldNameOf(fa) == "Owner" {
				owner = fa.X
			}
		}
		good := obj != nil && coin != nil && owner != nil && core.Unwrap(obj) == core.Unwrap(coin) && core.Unwrap(obj) == core.Unwrap(owner)
		c.Check(good, "C14.refund", key+"/credit", s.Pos(), "AddBalance(limit.Owner, limit.Coin1, copy of limit.WantSell) of one and the same closed order", "the remainder of an order closed for falling below the minimum volume is not refunded to its owner in its sell coin")
	}
	c.Check(n == 1, "C14.refund", key+"/shape", fn.Pos(), "one refund per closed order", fmt.Sprintf("%d AddBalance calls (expected one)", n))
}

// checkMinimumVolume — C14.minvol. After a fill the *remainder* of an order is closed (and
// refunded) when one of its two sides has dropped below the minimum order volume. Both tests are
// made on the remainder — the object updateSellOrder returns, the one that is then closed — not
// on the fill that was just traded: tested on the fill, a dust-sized trade closes a large order,
// and a remainder below the minimum stays open without a refund. Decided for the live pool module:
// in every function that compares order sides with minimumOrderVolume, all compared sides are
// fields of one and the same order object, both sides are compared, and that object is the one
// handed on as "little".
func checkMinimumVolume(c *core.Ctx, rule string) {
	n := 0
	for _, fn := range c.SrcFuncs(core.PkgState + "/swap") {
		if fn.Blocks == nil || legacyV1(fn) {
			continue
		}
		type side struct {
			field string
			base  ssa.Value
			pos   token.Pos
		}
		var sides []side
		for _, s := range core.Sites(fn) {
			if s.Callee != "(*math/big.Int).Cmp" || len(s.Common.Args) != 2 {
				continue
			}
			isMin := core.DependsOn(s.Common.Args[1], func(y ssa.Value) bool {
				ld, ok := y.(*ssa.UnOp)
				if !ok {
					return false
				}
				g, ok := ld.X.(*ssa.Global)
				return ok && g.Name() == "minimumOrderVolume"
			})
			if !isMin {
				continue
			}
			ld, ok := core.Unwrap(s.Common.Args[0]).(*ssa.UnOp)
			if !ok {
				continue
			}
			fa, ok := ld.X.(*ssa.FieldAddr)
			if !ok {
				continue
			}
			sides = append(sides, side{fieldNameOf(fa), core.Unwrap(fa.X), s.Pos()})
		}
		if len(sides) == 0 {
			continue
		}
		n++
		same, fields := true, map[string]bool{}
		for _, sd := range sides {
			fields[sd.field] = true
			if sd.base != sides[0].base {
				same = false
			}
		}
		c.Check(same && fields["WantBuy"] && fields["WantSell"], rule, core.ShortFn(fn)+"/minimum-volume", sides[0].pos, "both sides of one and the same order (the remainder) are compared with the minimum order volume",
			"the minimum-volume test does not compare both sides of one order object: one side is taken from another order (the fill instead of the remainder) — a dust trade can close a large order, and a remainder below the minimum can stay open without its refund")
	}
	c.Floor(rule, n, 1, "minimum-order-volume tests in the live pool module")
}
